"""C17 worker: pydantic verdicts under ONE model configuration (own process, so the rebuilt config never leaks).

argv: family (hugr|testing)  mode (strict|lax|default)
stdin : one JSON object per line  {"entry": <class name>, "doc": <json>}
stdout: one JSON object per line  {"ok": bool, "err": [error type names]}  ("ready" line first)
The document is validated in JSON mode (model_validate_json), which is what a decoder reading JSON text does.
"""
import json
import sys


def main():
    family, mode = sys.argv[1], sys.argv[2]
    from pydantic import ConfigDict, ValidationError
    from hugr._serialization.extension import Extension, Package
    from hugr._serialization.serial_hugr import SerialHugr
    from hugr._serialization.testing_hugr import TestingHugr
    top = {"hugr": SerialHugr, "testing": TestingHugr}[family]
    cfg = {"strict": ConfigDict(strict=True, extra="forbid"), "lax": ConfigDict(strict=False, extra="allow"),
           "default": None}[mode]
    if cfg is not None:
        # exactly the classes generate_schema.py reconfigures (ops/tys classes + the top model) get the config;
        # pydantic caches the core schema of nested models, so a plain _pydantic_rebuild leaves nested
        # validators on the OLD config (measured): drop the caches first, then run the repo's own rebuild.
        from hugr._serialization.ops import classes as ops_classes
        from hugr._serialization.tys import ConfiguredBaseModel
        cl = dict(ops_classes)
        cl[top.__name__] = top
        for c in cl.values():
            if issubclass(c, ConfiguredBaseModel):
                c.update_model_config(cfg)
        import inspect
        import pydantic
        import hugr._serialization.extension as EM
        others = [c for _, c in inspect.getmembers(EM, inspect.isclass)
                  if c.__module__ == EM.__name__ and issubclass(c, pydantic.BaseModel)]
        others += [c for c in (SerialHugr, TestingHugr) if c is not top]
        for c in list(cl.values()) + others:
            if "__pydantic_core_schema__" in c.__dict__:
                delattr(c, "__pydantic_core_schema__")
        top._pydantic_rebuild(cfg, force=True)
        for c in others:           # config untouched (as in generate_schema.py); only the stale nested schemas go
            c.model_rebuild(force=True)
    import hugr._serialization.extension as E
    import hugr._serialization.ops as O
    import hugr._serialization.tys as T
    classes = {"SerialHugr": SerialHugr, "TestingHugr": TestingHugr, "Extension": Extension, "Package": Package}

    def find(name):
        if name in classes:
            return classes[name]
        for m in (E, O, T):
            if hasattr(m, name):
                return getattr(m, name)
        raise KeyError(name)

    print(json.dumps({"ready": True, "versions": {
        "serialization_version": __import__("hugr._serialization.serial_hugr", fromlist=["x"]).serialization_version(),
        "SerialHugr": SerialHugr.get_version(), "TestingHugr": TestingHugr.get_version(),
        "Extension": Extension.get_version(), "Package": Package.get_version()}}), flush=True)
    for line in sys.stdin:
        req = json.loads(line)
        try:
            cls = find(req["entry"])
            cls.model_validate_json(json.dumps(req["doc"]))
            res = {"ok": True, "err": []}
        except ValidationError as e:
            res = {"ok": False, "err": sorted({x["type"] for x in e.errors()})}
        except Exception as e:  # noqa: BLE001
            res = {"ok": False, "err": ["EXC:" + type(e).__name__]}
        print(json.dumps(res), flush=True)


main()
