"""C17 reference validator: the `jsonschema` package (interpreter python3-vt, no hugr deps).

argv: schema file, requests file (JSON list of {"entry": name, "doc": json}), output file (JSON list of bool)
A document is validated against {"$ref": "#/$defs/<entry>", "$defs": <the file's $defs>}, draft 2020-12.
"""
import json
import sys

import jsonschema


def main():
    schema = json.load(open(sys.argv[1]))
    reqs = json.load(open(sys.argv[2]))
    cache = {}
    out = []
    for r in reqs:
        e = r["entry"]
        if e not in cache:
            cache[e] = jsonschema.Draft202012Validator({"$ref": "#/$defs/" + e, "$defs": schema["$defs"]})
        out.append(cache[e].is_valid(r["doc"]))
    json.dump(out, open(sys.argv[3], "w"))


main()
