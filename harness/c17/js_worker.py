"""C17 reference validator: the `jsonschema` package (interpreter python3-vt, which has no hugr deps).

argv: schema file.  stdin: one JSON object per line {"entry": name, "doc": json}; stdout: "true"/"false" per line
("ready" first).  A document is validated against {"$ref": "#/$defs/<entry>", "$defs": <the file's $defs>},
draft 2020-12 (the dialect pydantic emits).
"""
import json
import sys

import jsonschema


def main():
    schema = json.load(open(sys.argv[1]))
    cache = {}
    print("ready", flush=True)
    for line in sys.stdin:
        r = json.loads(line)
        e = r["entry"]
        if e not in cache:
            cache[e] = jsonschema.Draft202012Validator({"$ref": "#/$defs/" + e, "$defs": schema["$defs"]})
        print("true" if cache[e].is_valid(r["doc"]) else "false", flush=True)


main()
