"""C17: the schemas the models define after a SEQUENCE of schema-defining rebuilds in ONE process.

argv: <repo> <outdir> <steps>     steps = JSON list of [family, mode], family in hugr|testing, mode in strict|lax
For every step, in the given order, `write_schema` OF THE CHECKOUT's scripts/generate_schema.py is called (the
function the published files are produced with: `_pydantic_rebuild(config, force=True)` of the root model, then
`models_json_schema` of root + Extension + Package), each step into its own directory <outdir>/<index>/ .
scripts/generate_schema.py itself runs the one order  testing-strict, testing-lax, hugr-strict, hugr-lax;
what a (root, configuration) pair defines must not depend on what was rebuilt before it in the process.
stdout (last line): JSON list of the files written, one per step.
"""
import importlib.util
import json
import os
import sys

PREFIX = {("hugr", "strict"): "hugr_schema_strict", ("hugr", "lax"): "hugr_schema",
          ("testing", "strict"): "testing_hugr_schema_strict", ("testing", "lax"): "testing_hugr_schema"}


def configs():
    # the two configurations of scripts/generate_schema.py (__main__ block)
    from pydantic import ConfigDict
    return {"strict": ConfigDict(strict=True, extra="forbid"), "lax": ConfigDict(strict=False, extra="allow")}


def main():
    repo, outdir, steps = sys.argv[1], sys.argv[2], json.loads(sys.argv[3])
    from pathlib import Path
    spec = importlib.util.spec_from_file_location("c17_generate_schema", os.path.join(repo, "scripts", "generate_schema.py"))
    gs = importlib.util.module_from_spec(spec)
    spec.loader.exec_module(gs)                     # the __main__ block does not run
    from hugr._serialization.serial_hugr import SerialHugr
    from hugr._serialization.testing_hugr import TestingHugr
    roots = {"hugr": SerialHugr, "testing": TestingHugr}
    cfgs = configs()
    written = []
    for i, (fam, mode) in enumerate(steps):
        d = os.path.join(outdir, "%03d" % i)
        os.makedirs(d)
        # a fresh ConfigDict object per step, equal to generate_schema.py's
        gs.write_schema(Path(d), PREFIX[(fam, mode)], roots[fam], config=dict(cfgs[mode]))
        files = sorted(os.listdir(d))
        if len(files) != 1:
            raise SystemExit("write_schema wrote %r" % files)
        written.append(os.path.join(d, files[0]))
    print(json.dumps(written))


main()
