"""C17 worker: pydantic verdicts after a SEQUENCE of schema-defining rebuilds in ONE process.

argv: <steps>      JSON list of [family, mode], family in hugr|testing, mode in strict|lax (the last step names
                   the configuration whose decoder is observed)
stdin : one JSON object per line  {"entry": <class name>, "doc": <json>, "api": bool}
stdout: one JSON object per line  {"ok": bool, "err": [...]} + {"api": bool} when asked  ("ready" line first)

The steps are performed ONLY through the checkout's own entry point, `Root._pydantic_rebuild(config, force=True)`
(what scripts/generate_schema.py calls before it writes a file), with generate_schema.py's two configurations.
What configuration each model class carries afterwards is therefore entirely the checkout's doing.

"ok": the decoder those class configurations DENOTE: pydantic keeps the core schema of nested models cached, so
   a plain rebuild leaves nested validators on older configurations (measured on the unchanged tree, see
   pyd_worker.py); after the steps the cached core schemas of all serialization models are dropped and every class
   is rebuilt by pydantic's own BaseModel.model_rebuild WITH THE CONFIGURATION IT CARRIES (no configuration is
   written by this worker, unlike pyd_worker.py).
"api": the verdict of the validator object the last `_pydantic_rebuild` left on the entry class, untouched
   (meaningful for the members of the root object itself: the root is rebuilt last, after its configuration
   was updated).
"""
import inspect
import json
import sys


def main():
    steps = json.loads(sys.argv[1])
    import pydantic
    from pydantic import ConfigDict, ValidationError
    import hugr._serialization.extension as E
    import hugr._serialization.ops as O
    import hugr._serialization.tys as T
    from hugr._serialization.extension import Extension, Package
    from hugr._serialization.serial_hugr import SerialHugr
    from hugr._serialization.testing_hugr import TestingHugr
    roots = {"hugr": SerialHugr, "testing": TestingHugr}
    cfgs = {"strict": dict(strict=True, extra="forbid"), "lax": dict(strict=False, extra="allow")}
    for fam, mode in steps:
        roots[fam]._pydantic_rebuild(ConfigDict(**cfgs[mode]), force=True)
    entry_classes = {"SerialHugr": SerialHugr, "TestingHugr": TestingHugr, "Extension": Extension, "Package": Package}

    def find(name):
        if name in entry_classes:
            return entry_classes[name]
        for m in (E, O, T):
            if hasattr(m, name):
                return getattr(m, name)
        raise KeyError(name)

    api_validators = {}

    def api_validator(name):
        return api_validators[name]

    models = []
    for m in (T, O, E):
        for _, c in inspect.getmembers(m, inspect.isclass):
            if c.__module__ == m.__name__ and issubclass(c, pydantic.BaseModel) and c not in models:
                models.append(c)
    models += [c for c in (SerialHugr, TestingHugr) if c not in models]
    for c in models:
        api_validators[c.__name__] = c.__pydantic_validator__
    configs_before = {c.__name__: dict(c.model_config) for c in models}
    for c in models:
        if "__pydantic_core_schema__" in c.__dict__:
            delattr(c, "__pydantic_core_schema__")
    for c in models:
        pydantic.BaseModel.model_rebuild.__func__(c, force=True)
    assert configs_before == {c.__name__: dict(c.model_config) for c in models}

    print(json.dumps({"ready": True, "steps": steps}), flush=True)
    for line in sys.stdin:
        req = json.loads(line)
        text = json.dumps(req["doc"])
        try:
            cls = find(req["entry"])
            cls.model_validate_json(text)
            res = {"ok": True, "err": []}
        except ValidationError as e:
            res = {"ok": False, "err": sorted({x["type"] for x in e.errors()})}
        except Exception as e:  # noqa: BLE001
            res = {"ok": False, "err": ["EXC:" + type(e).__name__]}
        if req.get("api"):
            try:
                api_validator(req["entry"]).validate_json(text)
                res["api"] = True
            except ValidationError:
                res["api"] = False
            except Exception as e:  # noqa: BLE001
                res["api"] = False
                res["err"] = res["err"] + ["API-EXC:" + type(e).__name__]
        print(json.dumps(res), flush=True)


main()
