"""C17 probe: which JSON keys does the DECODER of every serialization model class read for each field?

pydantic features that change what the validator accepts without changing the generated JSON schema: a
`validation_alias` with several choices (AliasChoices), an alias path (AliasPath), `populate_by_name` together with
an alias.  The JSON schema pydantic generates (mode "validation") lists exactly ONE property key per field; every
further key the decoder reads for the field is a key the strict schema (`additionalProperties: false`) refuses and the
lax schema treats as an unconstrained extra member.

stdout: one JSON object {"classes": n, "fields": n, "issues": [{"cls", "field", "schema_key", "accepted": [keys],
"paths": [[...]], "why"}]}.  `accepted` = every top-level key the decoder reads for the field, `schema_key` first.
Reads class attributes only (model_fields, model_config); builds and validates nothing.
"""
import importlib
import inspect
import json

MODULES = ["tys", "ops", "extension", "serial_hugr", "testing_hugr"]


def main():
    import pydantic
    from pydantic import AliasChoices, AliasPath
    seen, todo = {}, []
    for m in MODULES:
        mod = importlib.import_module("hugr._serialization." + m)
        for _, c in inspect.getmembers(mod, inspect.isclass):
            if issubclass(c, pydantic.BaseModel) and c.__module__.startswith("hugr._serialization"):
                todo.append(c)
    while todo:
        c = todo.pop()
        if c in seen or not c.__module__.startswith("hugr._serialization"):
            continue
        seen[c] = True
        todo += c.__subclasses__()
    issues, nfields = [], 0
    for c in sorted(seen, key=lambda c: (c.__module__, c.__qualname__)):
        by_name = bool(c.model_config.get("populate_by_name")) or bool(c.model_config.get("validate_by_name"))
        gen = c.model_config.get("alias_generator")
        for name, f in c.model_fields.items():
            nfields += 1
            va, al = f.validation_alias, f.alias
            keys, paths, why = [], [], []
            if va is None:
                keys.append(al if al is not None else name)
            elif isinstance(va, str):
                keys.append(va)
            elif isinstance(va, AliasChoices):
                for ch in va.choices:
                    if isinstance(ch, str):
                        keys.append(ch)
                    else:
                        paths.append([str(x) for x in ch.path])
                why.append("validation_alias with choices")
            elif isinstance(va, AliasPath):
                paths.append([str(x) for x in va.path])
                why.append("validation_alias path")
            else:
                why.append("validation_alias of unknown kind " + type(va).__name__)
            if by_name and keys and name not in keys:
                keys.append(name)
                why.append("populate_by_name with an alias")
            if gen is not None:
                why.append("alias_generator")
            uniq = []
            for k in keys:
                if k not in uniq:
                    uniq.append(k)
            unknown = any(w.startswith("validation_alias of unknown kind") for w in why)
            if len(uniq) != 1 or paths or gen is not None or unknown:
                issues.append({"cls": c.__name__, "field": name, "schema_key": uniq[0] if uniq else None,
                               "accepted": uniq, "paths": paths, "why": why})
    print(json.dumps({"classes": len(seen), "fields": nfields, "issues": issues}))


main()
