"""Shared machinery of the /verif checks: Gallina literal printing, Coq runs, verdicts, evidence.

One property = one module harness/props/cNN.py exposing a `PROP` object (class Prop below).
The driver (main.py) builds the Coq closure of the property, runs the implementation on
generated cases, writes cases_*.v holding inputs and observed outputs, lets Coq evaluate
  corr : case -> bool   (implementation's observation == model's)
  mon  : case -> bool   (specification holds of the implementation's observation)
and turns the failing indices into KNOWN-FINDING / VIOLATION lines and evidence.
"""
from __future__ import annotations

import fcntl
import hashlib
import json
import os
import random
import re
import shutil
import subprocess
import sys
import time
from concurrent.futures import ThreadPoolExecutor

VERIF = os.path.dirname(os.path.dirname(os.path.abspath(__file__)))
COQ = os.path.join(VERIF, "coq")
REPO = os.environ.get("VERIF_REPO", "/repo")
SRC = os.path.join(REPO, "hugr-py", "src")
WORK_ROOT = os.path.join(VERIF, ".work")
FORBIDDEN = re.compile(
    r"\b(Admitted|admit|Axiom|Axioms|Parameter|Parameters|Conjecture|Admit Obligations|"
    r"Unset Guard Checking|bypass_check|type-in-type|impredicative-set|Unset Positivity|"
    r"Unset Universe Checking|native_compute)\b"
)

# ----------------------------------------------------------------------------- Gallina literals


def gZ(i: int) -> str:
    return f"({int(i)})%Z"


def gN(i: int) -> str:
    assert i >= 0
    return f"{int(i)}%N"


def gnat(i: int) -> str:
    assert 0 <= i < 5000, i
    return f"{int(i)}%nat"


def gbool(b) -> str:
    return "true" if b else "false"


def glist(xs) -> str:
    xs = list(xs)
    return "[" + "; ".join(xs) + "]" if xs else "[]"


def gopt(x) -> str:
    return "None" if x is None else f"(Some {x})"


def gpair(*xs) -> str:
    return "(" + ", ".join(xs) + ")"


def gapp(name: str, *args) -> str:
    return "(" + " ".join([name, *args]) + ")" if args else name


def gstr_codes(s: str) -> str:
    """A Python string as a list of code points (Z)."""
    return glist(gZ(ord(c)) for c in s)


class Interner:
    """Maps arbitrary hashable Python values to small integers (names compare by equality only)."""

    def __init__(self):
        self.tab: dict = {}
        self.rev: list = []

    def __call__(self, x) -> int:
        if x not in self.tab:
            self.tab[x] = len(self.rev)
            self.rev.append(x)
        return self.tab[x]


# ----------------------------------------------------------------------------- Coq build and run


def sh(cmd, timeout=None, cwd=None, env=None):
    p = subprocess.run(cmd, shell=isinstance(cmd, str), cwd=cwd, env=env, timeout=timeout,
                       stdout=subprocess.PIPE, stderr=subprocess.STDOUT, text=True)
    return p.returncode, p.stdout


class BuildLock:
    def __enter__(self):
        os.makedirs(WORK_ROOT, exist_ok=True)
        self.f = open(os.path.join(WORK_ROOT, "build.lock"), "w")
        fcntl.flock(self.f, fcntl.LOCK_EX)
        return self

    def __exit__(self, *a):
        fcntl.flock(self.f, fcntl.LOCK_UN)
        self.f.close()


def ensure_makefile():
    mk = os.path.join(COQ, "Makefile")
    cp = os.path.join(COQ, "_CoqProject")
    if not os.path.exists(mk) or os.path.getmtime(mk) < os.path.getmtime(cp):
        rc, out = sh("coq_makefile -f _CoqProject -o Makefile", cwd=COQ, timeout=120)
        if rc != 0:
            raise RuntimeError("coq_makefile failed: " + out)


def coq_build(targets: list[str], jobs: int = 8, timeout: int = 1500):
    """Full .vo build of the given targets (relative to coq/).  Returns (ok, log)."""
    with BuildLock():
        ensure_makefile()
        rc, out = sh(["make", "-j", str(jobs), *targets], cwd=COQ, timeout=timeout)
    return rc == 0, out


def write_if_changed(path: str, text: str) -> bool:
    try:
        if open(path).read() == text:
            return False
    except FileNotFoundError:
        pass
    os.makedirs(os.path.dirname(path), exist_ok=True)
    tmp = path + ".tmp%d" % os.getpid()
    with open(tmp, "w") as f:
        f.write(text)
    os.replace(tmp, path)
    return True


def forbidden_gate(files: list[str]) -> list[str]:
    bad = []
    for f in files:
        for n, line in enumerate(open(os.path.join(COQ, f)), 1):
            if FORBIDDEN.search(line):
                bad.append(f"{f}:{n}: {line.strip()}")
    return bad


def coq_closure(vfile: str) -> list[str]:
    """Project .v files a given .v file depends on (transitively), via coqdep."""
    seen, todo = [], [vfile]
    while todo:
        f = todo.pop()
        if f in seen:
            continue
        seen.append(f)
        rc, out = sh(["coqdep", "-Q", ".", "HV", f], cwd=COQ, timeout=60)
        for m in re.finditer(r"(\S+)\.vo\b", out.split(":", 1)[1] if ":" in out else ""):
            dep = m.group(1) + ".v"
            if os.path.exists(os.path.join(COQ, dep)) and dep not in seen:
                todo.append(dep)
    return sorted(seen)


STMT = re.compile(r"^\s*(Theorem|Lemma|Example|Corollary|Fact|Proposition|Remark)\s+(\w+)", re.M)


def count_obligations(files: list[str]) -> dict[str, list[str]]:
    res = {}
    for f in files:
        res[f] = [m.group(2) for m in STMT.finditer(open(os.path.join(COQ, f)).read())]
    return res


def run_coqc(vpath: str, timeout: int = 900) -> tuple[int, str]:
    return sh(["coqc", "-Q", COQ, "HV", "-w", "-all", vpath], cwd=os.path.dirname(vpath), timeout=timeout)


def print_assumptions(work: str, module: str, theorems: list[str]) -> dict[str, str]:
    """Ask Coq (not a stored log) for the axioms each property theorem depends on."""
    src = f"From HV Require Import {module}.\n" + "".join(
        f'Goal True. idtac "@@{t}". exact I. Qed.\nPrint Assumptions {t}.\n' for t in theorems)
    path = os.path.join(work, "assumptions.v")
    open(path, "w").write(src)
    rc, out = run_coqc(path)
    res = {}
    if rc != 0:
        return {t: "ERROR: " + out[-400:] for t in theorems}
    parts = re.split(r"@@(\w+)\n", out)
    for i in range(1, len(parts) - 1, 2):
        res[parts[i]] = " ".join(parts[i + 1].split())
    return res


def coqchk(module: str, timeout: int = 1500) -> dict:
    """Independent re-check of the compiled property file and everything it depends on (thorough tier).
    Returns {"ok": bool, "axioms": text, "summary": text}."""
    rc, out = sh(["coqchk", "-o", "-silent", "-Q", COQ, "HV", "HV." + module], cwd=COQ, timeout=timeout)
    m = re.search(r"CONTEXT SUMMARY\s*=+\s*(.*)", out, re.S)
    summary = " ".join((m.group(1) if m else out[-600:]).split())
    ax = re.search(r"\* Axioms:(.*?)\* Constants", summary)
    return {"ok": rc == 0, "axioms": (ax.group(1).strip() if ax else "?"), "summary": summary[:1500]}


IDX = re.compile(r"=\s*(\[[^\]]*\])")


def eval_cases(work: str, run_module: str, literals: list[str], shard: int = 250,
               checks=("corr", "mon"), jobs: int = int(os.environ.get("VERIF_JOBS", "6")), tag: str = "cases", case_type: str = "case"):
    """Evaluates the boolean checks of `run_module` on the case literals inside Coq (vm_compute).
    Returns {check: sorted list of failing global indices}; raises on a Coq error."""
    shards = [(i, literals[i:i + shard]) for i in range(0, len(literals), shard)]
    files = []
    for k, (base, lits) in enumerate(shards):
        path = os.path.join(work, f"{tag}_{k}.v")
        with open(path, "w") as f:
            f.write("From Coq Require Import List ZArith NArith Bool String.\nImport ListNotations.\n")
            f.write(f"From HV Require Import lib.Harness {run_module}.\n")
            f.write(f"Definition cases : list {case_type} := [\n")
            f.write(";\n".join(lits))
            f.write("\n].\n")
            for c in checks:
                f.write(f'Goal True. idtac "@@{c}". exact I. Qed.\n')
                f.write(f"Eval vm_compute in (failing {c} cases).\n")
        files.append((base, path))
    res = {c: [] for c in checks}

    def one(bp):
        base, path = bp
        rc, out = run_coqc(path)
        return base, path, rc, out

    with ThreadPoolExecutor(max_workers=jobs) as ex:
        for base, path, rc, out in ex.map(one, files):
            if rc != 0:
                raise CoqEvalError(path, out)
            parts = re.split(r"@@(\w+)\n", out)
            got = {}
            for i in range(1, len(parts) - 1, 2):
                m = IDX.search(parts[i + 1])
                if not m:
                    raise CoqEvalError(path, "unparsable output: " + parts[i + 1][:300])
                got[parts[i]] = [int(x) for x in re.findall(r"\d+", m.group(1))]
            for c in checks:
                if c not in got:
                    raise CoqEvalError(path, "missing result for " + c + ": " + out[-300:])
                res[c].extend(base + j for j in got[c])
    return {c: sorted(v) for c, v in res.items()}


class CoqEvalError(Exception):
    def __init__(self, path, out):
        super().__init__(f"coqc failed on {path}:\n{out[-2000:]}")
        self.path, self.out = path, out


# ----------------------------------------------------------------------------- known findings


def load_known(pid: str):
    known, fixed = {}, []
    path = os.path.join(VERIF, "known_findings.txt")
    if not os.path.exists(path):
        return known, fixed
    for line in open(path):
        line = line.strip()
        if not line or line.startswith("#"):
            continue
        m = re.match(r"known:\s+property=(\w+)\s+sig=(\S+)\s+(.*)", line)
        if m and m.group(1) == pid:
            known[m.group(2)] = m.group(3)
        m = re.match(r"fixed:\s+property=(\w+)\s+(.*)", line)
        if m and m.group(1) == pid:
            fixed.append(m.group(2))
    return known, fixed


# ----------------------------------------------------------------------------- property base class


class Prop:
    """Base class; a property module overrides what it needs."""

    id = "C00"
    title = ""
    props_file = "props/C00.v"       # property-level theorems
    run_file = "run/C00Run.v"        # corr / mon definitions
    run_module = "run.C00Run"
    case_type = "case"
    checks = ("corr", "mon")
    shard = 250
    rule = ""
    level_text = ""
    trusted = []                     # extra trusted-base lines
    assumptions = []                 # evidence.assumptions
    exhaustive = False

    def axioms_allowed(self, theorem: str, printed: str) -> bool:
        """Whether a non-closed Print Assumptions output is acceptable (stdlib axioms named in trusted)."""
        return False

    # -- data regeneration (translators); returns list of regenerated files
    def regenerate(self, ctx) -> list[str]:
        return []

    # -- cases
    def corpus(self, ctx) -> list:
        return []

    def generate(self, rng: random.Random, tier: str, ctx) -> list:
        raise NotImplementedError

    def observe(self, case, ctx):
        """Run the implementation; returns the observation (any JSON-able structure)."""
        raise NotImplementedError

    def literal(self, case, obs, ctx) -> str:
        raise NotImplementedError

    def nontrivial(self, case, obs) -> bool:
        return True

    def describe(self, case, obs):
        """JSON-able description used in samples and replay files."""
        return {"input": case, "observed": obs}

    def signature(self, case, obs, ctx) -> str:
        """Classifies a monitor failure; compared with known_findings.txt."""
        return "unclassified"

    def shrink(self, case):
        """Yields smaller variants of a case."""
        return []

    def neighbours(self, case, rng):
        """Directed search around a correspondence-only failure."""
        return []

    def distribution(self, cases, observations) -> dict:
        return {}

    # extra, property-specific checks done in Python/Coq outside the case stream;
    # returns list of (kind, description, detail) violations
    def extra(self, ctx, tier) -> list:
        return []


def case_hash(desc) -> str:
    return hashlib.sha1(json.dumps(desc, sort_keys=True, default=repr).encode()).hexdigest()[:12]
