"""Validates JSON documents against the published strict schema (run with python3-vt: has jsonschema,
no hugr).  Protocol: one request per stdin line "<def-name>\t<path>", one answer line "OK" or
"ERR <json path>: <message>".  The schema file publishes only `$defs`; documents are validated against
{"$ref": "#/$defs/<def-name>"} (SerialHugr, Package, Extension).

Speed: pydantic writes tagged unions as `oneOf` + `discriminator`.  jsonschema ignores the
discriminator and tries all ~20 branches per node.  When (and only when) every mapped branch of a
oneOf requires its tag property to be the `const` it is mapped from, the branches are mutually
exclusive and validating the single mapped branch is equivalent; this is verified per oneOf at start-up
(otherwise the plain oneOf is used).  `--plain` disables the shortcut (used for cross-checking)."""
import json
import sys

import jsonschema
from jsonschema import Draft202012Validator, validators


def main():
    schema_path = sys.argv[1]
    plain = "--plain" in sys.argv[2:]
    s = json.load(open(schema_path))
    defs = s["$defs"]

    def resolve(ref):
        assert ref.startswith("#/$defs/"), ref
        return defs[ref[len("#/$defs/"):]]

    def exclusive(schema):
        disc = schema.get("discriminator")
        if not disc or "mapping" not in disc:
            return False
        prop = disc["propertyName"]
        refs = [b.get("$ref") for b in schema["oneOf"]]
        if sorted(r for r in refs if r) != sorted(set(disc["mapping"].values())) or None in refs:
            return False
        for tag, ref in disc["mapping"].items():
            b = resolve(ref)
            p = b.get("properties", {}).get(prop, {})
            tags = [p["const"]] if "const" in p else p.get("enum", [])
            if tag not in tags:
                return False
            # a branch reachable under several tags must list them all; no other branch may accept this tag
        for tag, ref in disc["mapping"].items():
            for tag2, ref2 in disc["mapping"].items():
                if ref2 != ref:
                    p2 = resolve(ref2).get("properties", {}).get(prop, {})
                    tags2 = [p2["const"]] if "const" in p2 else p2.get("enum", [])
                    if tag in tags2:
                        return False
        return True

    orig_oneof = Draft202012Validator.VALIDATORS["oneOf"]
    cache = {}

    def one_of(validator, branches, instance, schema):
        key = id(schema)
        if key not in cache:
            cache[key] = (not plain) and exclusive(schema)
        if cache[key] and isinstance(instance, dict):
            disc = schema["discriminator"]
            tag = instance.get(disc["propertyName"])
            ref = disc["mapping"].get(tag) if isinstance(tag, str) else None
            if ref is not None:
                yield from validator.descend(instance, {"$ref": ref})
                return
        yield from orig_oneof(validator, branches, instance, schema)

    V = validators.extend(Draft202012Validator, {"oneOf": one_of})
    vals = {}
    print("READY", flush=True)
    for line in sys.stdin:
        line = line.rstrip("\n")
        if not line:
            continue
        name, path = line.split("\t", 1)
        try:
            if name not in vals:
                if name not in defs:
                    raise KeyError("schema has no definition " + name)
                vals[name] = V({"$ref": "#/$defs/" + name, "$defs": defs})
            doc = json.load(open(path))
            errs = list(vals[name].iter_errors(doc))
            if errs:
                e = jsonschema.exceptions.best_match(errs)
                print("ERR %s: %s" % ("/".join(map(str, e.absolute_path)), e.message[:300].replace("\n", " ")), flush=True)
            else:
                print("OK", flush=True)
        except Exception as e:  # fail closed
            print("ERR internal %s: %s" % (type(e).__name__, str(e)[:200].replace("\n", " ")), flush=True)


if __name__ == "__main__":
    main()
