import pytest
@pytest.fixture
def snapshot():
    return None
