import json, subprocess, warnings, sys
warnings.filterwarnings("ignore")
sys.path.insert(0, "/repo/hugr-py/tests")
from hugr import ops, tys, val, ext
from hugr.build import Dfg, Module, TrackedDfg, Cfg, Conditional, Function, TailLoop
from hugr.hugr import Hugr
from hugr.std.int import DivMod, INT_T, IntVal
from hugr.std.logic import Not
from hugr.std.float import FLOAT_T, FloatVal
from hugr.std.collections.array import ArrayVal, Array
from hugr.std.collections.list import ListVal
from hugr.std.collections.static_array import StaticArrayVal

def check(name, h):
    try:
        doc = h.to_json()
    except Exception as e:
        print(f"{name}: to_json raised {type(e).__name__}: {e}"); return
    r = subprocess.run(["/root/proto/fakehugr/hugr", "validate", "-", "--hugr-json"], input=doc.encode(), capture_output=True)
    rt = None
    try:
        h2 = Hugr.load_json(doc); rt = json.loads(h2.to_json()) == json.loads(doc)
    except Exception as e:
        rt = f"load raised {type(e).__name__}"
    print(f"{name}: {'valid' if r.returncode == 0 else r.stderr.decode().strip()} | roundtrip-fixpoint={rt}")

Q = tys.Qubit; B = tys.Bool
# 1 nested with ext edge from input and from op
d = Dfg(B, Q)
b, q = d.inputs()
n = d.add_op(Not, b)
with d.add_nested(q) as inner:
    x = inner.add_op(Not, n); y = inner.add_op(Not, b)
    inner.set_outputs(inner.inputs()[0], x, y)
d.set_outputs(*inner[:3])
check("1 ext edges", d.hugr)

# 2 tail loop with conditional inside and ext wires
d = Dfg(B, INT_T)
b, i = d.inputs()
with d.add_tail_loop([], [i]) as tl:
    (ii,) = tl.inputs()
    with tl.add_if(b, ii) as if_:
        (v,) = if_.inputs()
        dm = if_.add_op(DivMod, v, v)
        if_.set_outputs(dm[0])
    with if_.add_else() as else_:
        else_.set_outputs(*else_.inputs())
    c = else_.conditional_node
    brk = tl.add_op(ops.Break(tys.Either([], [])), )
    tl.set_loop_outputs(brk, c[0])
d.set_outputs(tl[0])
check("2 loop+if (DivMod last out unused)", d.hugr)

# 3 static ext edges: call + load from module-level const
m = Module()
f = m.define_function("f", [B], [B]); f.set_outputs(*f.inputs())
k = m.add_const(val.TRUE)
g = m.define_main([B])
with g.add_nested(g.inputs()[0]) as inner:
    c = inner.call(f, inner.inputs()[0]); l = inner.load(k)
    inner.set_outputs(c, l)
g.set_outputs(*inner[:2])
check("3 static ext", m.hugr)

# 5 order edge from node with unused last output (D7)
d = Dfg(INT_T, INT_T); a, b2 = d.inputs()
dm = d.add_op(DivMod, a, b2)
with d.add_nested() as inner:
    r = inner.add_op(ops.Noop(), dm[0]); inner.set_outputs(r)
d.set_outputs(inner)
check("5 D7 ext edge from partially used multi-out", d.hugr)

# 6 load const used in nested region (order edge out of LoadConst)
d = Dfg(); l = d.load(val.TRUE)
with d.add_nested() as inner:
    r = inner.add_op(Not, l); inner.set_outputs(r)
d.set_outputs(inner)
check("6 loadconst -> nested", d.hugr)

# 7 call result used in nested
m = Module(); f = m.declare_function("f", tys.PolyFuncType([], tys.FunctionType([], [B, B])))
g = m.define_main([])
c = g.call(f)
with g.add_nested() as inner:
    r = inner.add_op(Not, c[0]); inner.set_outputs(r)
g.set_outputs(inner, c[1])
check("7 call -> nested (order edge out of Call)", m.hugr)

# 8 cfg with dom edge and two successors
c = Cfg(B, INT_T)
with c.add_entry() as e:
    b_, i_ = e.inputs()
    nn = e.add_op(Not, b_)
    e.set_block_outputs(b_, i_)
with c.add_successor(e[0]) as b0:
    (i0,) = b0.inputs(); x = b0.add_op(Not, nn); b0.set_single_succ_outputs(i0)
with c.add_successor(e[1]) as b1:
    (i1,) = b1.inputs(); b1.set_single_succ_outputs(i1)
c.branch_exit(b0[0]); c.branch_exit(b1[0])
check("8 cfg dom edge", c.hugr)

# 9 row-polymorphic call
m = Module()
rv = tys.RowVariable(0, tys.TypeBound.Copyable)
sig = tys.PolyFuncType([tys.ListParam(tys.TypeTypeParam(tys.TypeBound.Copyable))], tys.FunctionType([rv],[rv]))
fd = m.declare_function("f", sig)
g = m.define_main([B, B])
cc = g.call(fd, *g.inputs(), instantiation=tys.FunctionType([B, B],[B, B]), type_args=[tys.SequenceArg([B.type_arg(), B.type_arg()])])
try:
    g.set_outputs(*cc[:2])
    check("9 row-poly call", m.hugr)
except Exception as e: print("9 row-poly call: builder raised", type(e).__name__, e)

# 10 function defined inside a dfg and called there
d = Dfg(B)
f = d.define_function("inner_f", [B], [B], parent=d.parent_node); f.set_outputs(*f.inputs())
c = d.call(f, d.inputs()[0]); d.set_outputs(c)
check("10 local funcdefn", d.hugr)

# 11 values
d = Dfg()
vals = [IntVal(3, 4), FloatVal(1.5), val.Some(val.TRUE, IntVal(1)), val.None_(B), val.Left([val.TRUE],[INT_T]), val.Right([B],[IntVal(2)]),
        val.Tuple(val.TRUE, val.Tuple()), ArrayVal([IntVal(1), IntVal(2)], INT_T), ListVal([val.TRUE], B), StaticArrayVal([FloatVal(0.5)], FLOAT_T, "arr"),
        val.Sum(1, tys.Sum([[B],[INT_T, B]]), [IntVal(7), val.FALSE])]
outs = [d.load(v) for v in vals]
d.set_outputs(*outs)
check("11 values", d.hugr)
inner = Dfg(B); inner.set_outputs(*inner.inputs())
d = Dfg(); l = d.load(val.Function(inner.hugr)); d.set_outputs(l)
check("12 function value", d.hugr)

# 13 insert_nested with builder
inner = Dfg(B); nn = inner.add_op(Not, inner.inputs()[0]); inner.add_state_order(inner.input_node, nn); inner.set_outputs(nn)
d = Dfg(B); r = d.insert_nested(inner, d.inputs()[0]); d.set_outputs(r)
check("13 insert_nested with order edge", d.hugr)

# 14 conditional with linear other input and unit sum 3
d = Dfg(tys.UnitSum(3), Q)
s, q = d.inputs()
with d.add_conditional(s, q) as cond:
    for i in range(3):
        with cond.add_case(i) as case: case.set_outputs(*case.inputs())
d.set_outputs(*cond[:1])
check("14 conditional", d.hugr)

# 15 MakeTuple/UnpackTuple/Tag/CallIndirect/LoadFunc
m = Module(); f = m.define_function("f", [B], [B]); f.set_outputs(*f.inputs())
g = m.define_main([B, Q])
b, q = g.inputs()
t = g.add_op(ops.MakeTuple(), b, q); u = g.add_op(ops.UnpackTuple(), t)
lf = g.load_function(f); ci = g.add_op(ops.CallIndirect(), lf, u[0])
tg = g.add_op(ops.Some(B), ci)
g.set_outputs(tg, u[1])
check("15 misc ops", m.hugr)
# 16 load_function unused + order edge
m = Module(); f = m.declare_function("f", tys.PolyFuncType([], tys.FunctionType([], [])))
g = m.define_main([]); lf = g.load_function(f); n2 = g.load(val.TRUE); g.add_state_order(lf, n2); g.set_outputs(n2)
check("16 order edge from LoadFunc with unused output", m.hugr)
