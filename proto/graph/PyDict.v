(* Prototype: insertion-ordered dict as association list, over a decidable key type *)
From Coq Require Import List Bool Arith Lia.
Import ListNotations.

Section Dict.
  Context {K V : Type} (keqb : K -> K -> bool).
  Hypothesis keqb_spec : forall a b, reflect (a = b) (keqb a b).

  Definition dict := list (K * V).

  Fixpoint dget (d : dict) (k : K) : option V :=
    match d with [] => None | (k', v) :: r => if keqb k k' then Some v else dget r k end.
  Fixpoint ddel (d : dict) (k : K) : dict :=
    match d with [] => [] | (k', v) :: r => if keqb k k' then r else (k', v) :: ddel r k end.
  Fixpoint dset (d : dict) (k : K) (v : V) : dict :=
    match d with [] => [(k, v)]
    | (k', v') :: r => if keqb k k' then (k, v) :: r else (k', v') :: dset r k v end.
  Definition keys (d : dict) := map fst d.

  Lemma keqb_refl k : keqb k k = true.
  Proof. destruct (keqb_spec k k); congruence. Qed.
  Lemma keqb_neq a b : a <> b -> keqb a b = false.
  Proof. destruct (keqb_spec a b); congruence. Qed.

  Lemma dget_dset_same d k v : dget (dset d k v) k = Some v.
  Proof. induction d as [|[k' v'] r IH]; cbn; [now rewrite keqb_refl|].
         destruct (keqb_spec k k'); cbn; [now rewrite keqb_refl|].
         rewrite keqb_neq by assumption. exact IH. Qed.
  Lemma dget_dset_other d k v k2 : k2 <> k -> dget (dset d k v) k2 = dget d k2.
  Proof. intros Hne. induction d as [|[k' v'] r IH]; cbn; [now rewrite keqb_neq|].
         destruct (keqb_spec k k') as [->|Hkk']; cbn.
         - now rewrite (keqb_neq k2 k') by assumption.
         - destruct (keqb k2 k'); [reflexivity|exact IH]. Qed.
  Lemma dget_ddel_other d k k2 : k2 <> k -> dget (ddel d k) k2 = dget d k2.
  Proof. intros Hne. induction d as [|[k' v'] r IH]; cbn; [reflexivity|].
         destruct (keqb_spec k k') as [->|Hkk']; cbn.
         - now rewrite (keqb_neq k2 k') by assumption.
         - destruct (keqb k2 k'); [reflexivity|exact IH]. Qed.
  Lemma dget_In d k v : dget d k = Some v -> In k (keys d).
  Proof. induction d as [|[k' v'] r IH]; cbn; [discriminate|].
         destruct (keqb_spec k k'); [left; congruence| right; auto]. Qed.
  Lemma dget_notin d k : ~ In k (keys d) -> dget d k = None.
  Proof. induction d as [|[k' v'] r IH]; cbn; [reflexivity|]. intros H.
         rewrite keqb_neq by (intros ->; apply H; now left). apply IH. tauto. Qed.
  Lemma dget_ddel_same d k : NoDup (keys d) -> dget (ddel d k) k = None.
  Proof. induction d as [|[k' v'] r IH]; cbn; [reflexivity|]. intros Hnd. inversion Hnd; subst.
         destruct (keqb_spec k k') as [->|Hkk']; cbn.
         - now apply dget_notin.
         - rewrite keqb_neq by assumption. auto. Qed.
  Lemma keys_ddel_incl d k x : In x (keys (ddel d k)) -> In x (keys d).
  Proof. induction d as [|[k' v'] r IH]; cbn; [tauto|].
         destruct (keqb k k'); cbn; [tauto|]. intros [->|H]; [now left| right; auto]. Qed.
  Lemma nodup_ddel d k : NoDup (keys d) -> NoDup (keys (ddel d k)).
  Proof. induction d as [|[k' v'] r IH]; cbn; [constructor|]. intros Hnd; inversion Hnd; subst.
         destruct (keqb k k'); [assumption|]. cbn. constructor; [|auto].
         intros Hin. apply keys_ddel_incl in Hin. contradiction. Qed.
  Lemma keys_dset d k v x : In x (keys (dset d k v)) <-> x = k \/ In x (keys d).
  Proof. induction d as [|[k' v'] r IH]; cbn; [intuition|].
         destruct (keqb_spec k k') as [->|Hne]; cbn; [intuition|]. rewrite IH. intuition. Qed.
  Lemma nodup_dset d k v : NoDup (keys d) -> NoDup (keys (dset d k v)).
  Proof. induction d as [|[k' v'] r IH]; cbn; [repeat constructor; auto|]. intros Hnd; inversion Hnd; subst.
         destruct (keqb_spec k k') as [->|Hne]; cbn; [constructor; assumption|].
         constructor; [|auto]. rewrite keys_dset. intros [->|H]; [congruence|contradiction]. Qed.
End Dict.
