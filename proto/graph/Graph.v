(* Prototype of the hugr.hugr.base.Hugr store model (links part), current (unrepaired) code. *)
From Coq Require Import List Bool Arith ZArith Lia.
From Proto Require Import PyDict.
Import ListNotations.

Definition nid := nat.
Record port := { pnode : nid; poff : Z }.          (* offset -1 = order port *)
Record subport := { sp : port; sub : nat }.
Definition port_eqb (a b : port) := Nat.eqb (pnode a) (pnode b) && Z.eqb (poff a) (poff b).
Definition sub_eqb (a b : subport) := port_eqb (sp a) (sp b) && Nat.eqb (sub a) (sub b).
Definition next (s : subport) := {| sp := sp s; sub := S (sub s) |}.

Section G.
  Variable Op : Type.
  Record node_data := { op : Op; parent : option nid; num_inps : nat; num_outs : nat;
                        children : list nid; meta : list (nat * nat) }.
  Record hugr := { nodes : list (option node_data); fwd : list (subport * subport);
                   bck : list (subport * subport); free : list nid; root : nid }.

  Notation getl := (dget sub_eqb).
  Definition has (d : list (subport * subport)) (s : subport) : bool :=
    match getl d s with Some _ => true | None => false end.

  (* base.py:297-307  while sub_port in d: sub_port = next   (fuel = |d|+1 always suffices) *)
  Fixpoint unused_from (fuel : nat) (d : list (subport * subport)) (s : subport) : subport :=
    match fuel with 0 => s | S f => if has d s then unused_from f d (next s) else s end.
  Definition unused_sub (d : list (subport * subport)) (p : port) :=
    unused_from (S (length d)) d {| sp := p; sub := 0 |}.

  (* base.py:438-445 *)
  Fixpoint linked_from (fuel : nat) (d : list (subport * subport)) (s : subport) : list port :=
    match fuel with 0 => [] | S f =>
      match getl d s with Some t => sp t :: linked_from f d (next s) | None => [] end end.
  Definition linked_out (h : hugr) (p : port) := linked_from (S (length (fwd h))) (fwd h) {| sp := p; sub := 0 |}.
  Definition linked_in (h : hugr) (p : port) := linked_from (S (length (bck h))) (bck h) {| sp := p; sub := 0 |}.

  Definition get_node (h : hugr) (n : nid) : option node_data :=
    match nth_error (nodes h) n with Some (Some d) => Some d | _ => None end.
  Fixpoint set_nth {A} (l : list A) (n : nat) (x : A) : list A :=
    match l, n with [], _ => [] | _ :: r, 0 => x :: r | a :: r, S k => a :: set_nth r k x end.
  Definition upd_node (h : hugr) (n : nid) (f : node_data -> node_data) : hugr :=
    match get_node h n with
    | Some d => {| nodes := set_nth (nodes h) n (Some (f d)); fwd := fwd h; bck := bck h; free := free h; root := root h |}
    | None => h end.

  (* BiMap.insert_left on fresh keys reduces to two sets; kept general *)
  Definition bm_insert (f b : list (subport * subport)) (k v : subport) :=
    let f1 := match getl b v with Some ek => ddel sub_eqb f ek | None => f end in
    let b1 := match getl f1 k with Some ev => ddel sub_eqb b ev | None => b end in
    (dset sub_eqb f1 k v, dset sub_eqb b1 v k).

  (* base.py:327-348 *)
  Definition add_link (h : hugr) (src dst : port) : hugr :=
    let s := unused_sub (fwd h) src in
    let t := unused_sub (bck h) dst in
    let '(f, b) := bm_insert (fwd h) (bck h) s t in
    let h1 := {| nodes := nodes h; fwd := f; bck := b; free := free h; root := root h |} in
    let h2 := upd_node h1 (pnode src) (fun d => {| op := op d; parent := parent d; num_inps := num_inps d;
                 num_outs := Nat.max (num_outs d) (Z.to_nat (poff src + 1)); children := children d; meta := meta d |}) in
    upd_node h2 (pnode dst) (fun d => {| op := op d; parent := parent d;
                 num_inps := Nat.max (num_inps d) (Z.to_nat (poff dst + 1)); num_outs := num_outs d;
                 children := children d; meta := meta d |}).

  (* base.py:368-382, as it is today *)
  Fixpoint find_idx (l : list port) (q : port) (i : nat) : option nat :=
    match l with [] => None | p :: r => if port_eqb p q then Some i else find_idx r q (S i) end.
  Definition delete_link_today (h : hugr) (src dst : port) : hugr :=
    match find_idx (linked_out h src) dst 0 with
    | None => h
    | Some i =>
      let k := {| sp := src; sub := i |} in
      match getl (fwd h) k with
      | Some v => {| nodes := nodes h; fwd := ddel sub_eqb (fwd h) k; bck := ddel sub_eqb (bck h) v; free := free h; root := root h |}
      | None => h end
    end.

  Definition links (h : hugr) : list (port * port) := map (fun '(s, t) => (sp s, sp t)) (fwd h).
End G.

(* the D4 witness: fan-out of three, delete the middle link *)
Definition mk (n : nat) : node_data unit := {| op := tt; parent := Some 0; num_inps := 0; num_outs := 0; children := []; meta := [] |}.
Definition h0 : hugr unit := {| nodes := [Some (mk 0); Some (mk 1); Some (mk 2); Some (mk 3); Some (mk 4)]; fwd := []; bck := []; free := []; root := 0 |}.
Definition P n o := {| pnode := n; poff := o |}.
Definition h3 := add_link unit (add_link unit (add_link unit h0 (P 1 0) (P 2 0)) (P 1 0) (P 3 0)) (P 1 0) (P 4 0).
Definition h4 := delete_link_today unit h3 (P 1 0) (P 3 0).
Eval vm_compute in (linked_out unit h3 (P 1 0), linked_out unit h4 (P 1 0), links unit h4).
(* spec says: linked ports of (1,0) after deletion = [ (2,0); (4,0) ]; the model of today's code says [(2,0)] *)
Example delete_link_refuted :
  linked_out unit h4 (P 1 0) <> [P 2 0; P 4 0] /\ In (P 1 0, P 4 0) (links unit h4).
Proof. vm_compute. split; [discriminate | auto]. Qed.
